#!/usr/bin/env python3
"""Translator: the type definitions of /repo/src/ast.rs and token.rs -> Lean 4 inductive types
(Gosyn/Gen/Ast.lean), a serde-compatible toJson / fromJson pair (Gosyn/Gen/Json.lean) and the
round-trip proof script (Gosyn/Gen/RoundTrip.lean).  Fails loudly on anything it does not
understand (unknown serde attribute, tuple struct, struct variant, Option of a nullable type)."""
import re, sys, os
repo = sys.argv[1] if len(sys.argv) > 1 else '/repo'
outdir = sys.argv[2] if len(sys.argv) > 2 else os.path.join(os.path.dirname(os.path.abspath(__file__)), '..', 'lean', 'Gosyn', 'Gen')
src_ast=open(repo+'/src/ast.rs').read()
src_tok=open(repo+'/src/token.rs').read()
def fail(msg): sys.exit('gen_ast.py: '+msg)
def write_if_changed(name, text):
    p=os.path.join(outdir,name)
    if os.path.exists(p) and open(p).read()==text: return
    open(p,'w').write(text)

def strip_comments(s): return re.sub(r'//[^\n]*','',s)

def split_top(s, sep=','):
    out=[];d=0;cur=''
    for ch in s:
        if ch in '<([': d+=1
        if ch in '>)]': d-=1
        if ch==sep and d==0: out.append(cur.strip()); cur=''
        else: cur+=ch
    if cur.strip(): out.append(cur.strip())
    return out

def parse_type(t):
    t=t.strip()
    m=re.fullmatch(r'(\w+)<(.*)>',t)
    if m:
        return (m.group(1), [parse_type(x) for x in split_top(m.group(2))])
    if t.startswith('(') and t.endswith(')'):
        return ('Tuple',[parse_type(x) for x in split_top(t[1:-1])])
    m=re.fullmatch(r'\[(.*);\s*(\d+)\]',t)
    if m: return ('Array',[parse_type(m.group(1))],int(m.group(2)))
    return (t,[])

types={}   # name -> ('struct', generics, [(field, type)]) | ('enum', [(variant, type|None)])
def scan(src):
    src=strip_comments(src)
    for m in re.finditer(r'((?:#\[[^\]]*\]\s*)*)pub (struct|enum) (\w+)(?:<(\w+)>)?\s*\{(.*?)\n\}', src, re.S):
        attrs,kind,name,gen,body=m.groups()
        if name not in ('Token','TokenKind'):
            if 'cfg_attr(feature = "serde", derive(Serialize, Deserialize))' not in attrs: fail(f'type {name} lacks the serde derive attribute')
            if len(re.findall(r'serde',attrs))!=1: fail(f'type {name}: unrecognised serde attribute in {attrs!r}')
        for l in body.split('\n'):
            if l.strip().startswith('#[') and ('serde' in l or 'cfg' in l): fail(f'type {name}: unrecognised field/variant attribute {l.strip()!r}')
        body='\n'.join(l for l in body.split('\n') if not l.strip().startswith('#['))
        if kind=='struct':
            fields=[]
            for f in split_top(body):
                f=re.sub(r'#\[[^\]]*\]','',f).strip()
                if not f: continue
                fm=re.fullmatch(r'pub (\w+)\s*:\s*(.*)',f,re.S)
                if not fm: fail(f'struct {name}: field not understood: {f!r}')
                fields.append((fm.group(1),parse_type(fm.group(2))))
            types[name]=('struct',gen,fields,attrs)
        else:
            vs=[]
            for v in split_top(body):
                v=re.sub(r'#\[[^\]]*\]','',v).strip()
                if not v: continue
                vm=re.fullmatch(r'(\w+)(?:\((.*)\))?',v,re.S)
                if not vm: fail(f'enum {name}: variant not understood (only unit and newtype variants are supported): {v!r}')
                if name not in ('Token','TokenKind') and vm.group(2) and len(split_top(vm.group(2)))!=1: fail(f'enum {name}: variant {vm.group(1)} is not a newtype variant')
                vs.append((vm.group(1), parse_type(vm.group(2)) if vm.group(2) else None))
            types[name]=('enum',gen,vs,attrs)
scan(src_tok); scan(src_ast)
for drop in ('Token','TokenKind'): types.pop(drop,None)
EXTERNAL=('Operator','Keyword','LitKind')   # defined by extract.py in Gen/Tables.lean
for n in EXTERNAL:
    if n not in types: fail(f'{n} not found in token.rs')
n_structs=len(re.findall(r'^pub (?:struct|enum) ', strip_comments(src_ast), re.M))

# monomorphise Decl<T>
decl=types.pop('Decl')
def subst(t,var,arg):
    if t[0]==var and not t[1]: return arg
    return (t[0],[subst(x,var,arg) for x in t[1]])+tuple(t[2:])
for arg in ('TypeSpec','ConstSpec','VarSpec'):
    types['Decl'+arg]=('struct',None,[(f,subst(t,decl[1],(arg,[]))) for f,t in decl[2]],decl[3])
def mono(t):
    if t[0]=='Decl': return ('Decl'+t[1][0][0],[])
    return (t[0],[mono(x) for x in t[1]])+tuple(t[2:])
for n,(k,g,items,a) in list(types.items()):
    types[n]=(k,g,[(f,mono(t) if t else None) for f,t in items],a)

# the schema, for tools that walk serde JSON trees by type (tools/props/c05.py)
import json as _json
_schema={n:{'kind':k,'items':[[f,t] for f,t in items]} for n,(k,g,items,a) in types.items()}
os.makedirs(os.path.join(os.path.dirname(os.path.abspath(__file__)),'..','work'),exist_ok=True)
open(os.path.join(os.path.dirname(os.path.abspath(__file__)),'..','work','ast_schema.json'),'w').write(_json.dumps(_schema))

def lean_type(t):
    n,args=t[0],t[1]
    if n in('usize',): return 'Nat'
    if n=='String' or n=='PathBuf': return 'String'
    if n=='bool': return 'Bool'
    if n in('Box','Rc'): return lean_type(args[0])
    if n=='Vec': return f'(List {lean_type(args[0])})'
    if n=='Option': return f'(Option {lean_type(args[0])})'
    if n=='Tuple': return '('+' × '.join(lean_type(a) for a in args)+')'
    if n=='Array': return '('+' × '.join([lean_type(args[0])]*t[2])+')'
    return n
def deps(t,acc):
    if t is None: return
    if t[0] in types: acc.add(t[0])
    for a in t[1]: deps(a,acc)
graph={n:set() for n in types}
for n,(k,g,items,a) in types.items():
    for f,t in items: deps(t,graph[n])
# SCCs (Tarjan)
idx={};low={};st=[];on=set();sccs=[];c=[0]
def sc(v):
    idx[v]=low[v]=c[0];c[0]+=1;st.append(v);on.add(v)
    for w in sorted(graph[v]):
        if w not in idx: sc(w);low[v]=min(low[v],low[w])
        elif w in on: low[v]=min(low[v],idx[w])
    if low[v]==idx[v]:
        comp=[]
        while True:
            w=st.pop();on.discard(w);comp.append(w)
            if w==v:break
        sccs.append(comp)
sys.setrecursionlimit(10000)
for v in types:
    if v not in idx: sc(v)
out=['/- GENERATED from /repo/src/ast.rs and token.rs by gen_ast.py -/','import Gosyn.Gen.Tables','namespace Gosyn.Ast','open Gosyn.Gen','']
def emit_type(n, in_mutual):
    k,g,items,a=types[n]
    if n in EXTERNAL: return
    if k=='enum':
        out.append(f'inductive {n} where')
        for v,t in items:
            out.append(f'  | {v}'+(f' (a : {lean_type(t)})' if t else ''))
        if all(t is None for v,t in items): out.append('deriving DecidableEq, Repr, Inhabited')
    else:
        if in_mutual:
            out.append(f'inductive {n} where')
            out.append('  | mk '+' '.join(f'({f} : {lean_type(t)})' for f,t in items))
        else:
            out.append(f'structure {n} where')
            for f,t in items: out.append(f'  {f} : {lean_type(t)}')
            pass
    out.append('')
for comp in sccs:
    rec = len(comp)>1 or comp[0] in graph[comp[0]]
    if rec: out.append('mutual')
    for n in sorted(comp, key=lambda x:list(types).index(x)): emit_type(n, rec)
    if rec: out.append('end'); out.append('')
out.append('end Gosyn.Ast')
write_if_changed('Ast.lean','\n'.join(out)+'\n')
print(len(types),'types;',[len(c) for c in sccs if len(c)>1],'recursive SCC sizes')

# ---------- toJson generation ----------
J=['','inductive J where','  | null | num (n : Nat) | str (s : String) | bool (b : Bool)','  | arr (l : List J) | obj (l : List (String × J))','deriving Repr, Inhabited','']
rec_set=set(max(sccs,key=len))
aux={}  # key -> (name, code)
def is_rec(t):
    if t is None: return False
    if t[0] in rec_set: return True
    return any(is_rec(a) for a in t[1])
def tj(t, e):
    """Lean expression of type J for value expression e of rust type t"""
    n,args=t[0],t[1]
    if n=='usize': return f'(J.num {e})'
    if n in('String','PathBuf'): return f'(J.str {e})'
    if n=='bool': return f'(J.bool {e})'
    if n in('Box','Rc'): return tj(args[0],e)
    if n=='Vec':
        return f'(J.arr ({auxfn(t)} {e}))'
    if n=='Option':
        return f'({auxfn(t)} {e})'
    if n=='Tuple':
        k=len(args); vs=[f'({e}).'+'2.'*i+('1' if i<k-1 else '') for i in range(k)]
        vs=[v.rstrip('.') if v.endswith('.') else v for v in vs]
        # (a,b): e.1, e.2 ; (a,b,c): e.1, e.2.1, e.2.2
        comps=[]
        for i in range(k):
            path='.2'*i + ('.1' if i<k-1 else '')
            comps.append(tj(args[i], f'({e}){path}'))
        return '(J.arr ['+', '.join(comps)+'])'
    if n=='Array':
        k=t[2]; comps=[]
        for i in range(k):
            path='.2'*i + ('.1' if i<k-1 else '')
            comps.append(tj(args[0], f'({e}){path}'))
        return '(J.arr ['+', '.join(comps)+'])'
    return f'({n}.toJson {e})'
def tname(t):
    n,args=t[0],t[1]
    if n in('Box','Rc'): return tname(args[0])
    if n=='Tuple': return 'T'+''.join(tname(a) for a in args)
    if n=='Array': return 'A%d'%t[2]+tname(args[0])
    return n+''.join(tname(a) for a in args)
def auxfn(t):
    key=tname(t)
    if key in aux: return aux[key][0]
    fn='toJ_'+key
    aux[key]=(fn,None,t)   # reserve
    inner=t[1][0]
    if t[0]=='Vec':
        code=[f'def {fn} : {lean_type(t)} → List J',f'  | [] => []',f'  | x :: xs => {tj(inner,"x")} :: {fn} xs']
    else:
        code=[f'def {fn} : {lean_type(t)} → J',f'  | none => J.null',f'  | some x => {tj(inner,"x")}']
    aux[key]=(fn,code,t)
    return fn
defs={}
for n,(k,g,items,a) in types.items():
    if k=='enum':
        if all(t is None for v,t in items):
            code=[f'def {n}.toJson : {n} → J']+[f'  | .{v} => J.str "{v}"' for v,t in items]
        else:
            code=[f'def {n}.toJson : {n} → J']+[f'  | .{v} a => J.obj [("{v}", {tj(t,"a")})]' for v,t in items]
    else:
        if n in rec_set:
            pats=[];flds=[]
            for f,t in items:
                if t[0]=='Array' and is_rec(t):
                    k=t[2]; vs=[f'{f}{i}' for i in range(k)]
                    pats.append('('+', '.join(vs)+')')
                    flds.append(f'("{f}", (J.arr ['+', '.join(tj(t[1][0],v) for v in vs)+']))')
                else:
                    pats.append(f); flds.append(f'("{f}", {tj(t,f)})')
            code=[f'def {n}.toJson : {n} → J', '  | .mk '+' '.join(pats)+' => J.obj ['+', '.join(flds)+']']
        else:
            code=[f'def {n}.toJson (v : {n}) : J :=', '  J.obj ['+', '.join(f'("{f}", {tj(t,"v."+f)})' for f,t in items)+']']
    defs[n]=code
o=['/- GENERATED by gen_ast.py: serde-compatible printer -/','import Gosyn.Gen.Ast','namespace Gosyn.Ast','open Gosyn.Gen']+J
emitted=set(); done_aux=set()
def adeps(t):
    acc=set(); deps(t,acc); return acc
def flush(o):
    progress=True
    while progress:
        progress=False
        for k,(fn,code,t) in list(aux.items()):
            if k in done_aux: continue
            if adeps(t)<=emitted:
                o+=code+['']; done_aux.add(k); progress=True
for comp in sccs:
    rec = len(comp)>1
    names=sorted(comp, key=lambda x:list(types).index(x))
    flush(o)
    if rec:
        o.append('mutual')
        for k,(fn,code,t) in list(aux.items()):
            if k in done_aux: continue
            if adeps(t)&set(comp) and adeps(t)<=emitted|set(comp):
                o+=code+['']; done_aux.add(k)
        for n in names: o+=defs[n]+['']
        o.append('end'); o.append('')
    else:
        for n in names: o+=defs[n]+['']
    emitted|=set(comp)
flush(o)
o.append('end Gosyn.Ast')
write_if_changed('Json.lean','\n'.join(o)+'\n')
print('aux fns:',len(aux), 'emitted', len(done_aux))

# ---------- fromJson generation ----------
faux={}
def fj(t, e):
    """Lean expression of type Option <lean_type t> reading J expression e"""
    n,args=t[0],t[1]
    if n=='usize': return f'(J.getNum {e})'
    if n in('String','PathBuf'): return f'(J.getStr {e})'
    if n=='bool': return f'(J.getBool {e})'
    if n in('Box','Rc'): return fj(args[0],e)
    if n in('Vec','Option','Tuple','Array'): return f'({fauxfn(t)} {e})'
    return f'({n}.fromJson {e})'
def fauxfn(t):
    key=tname(t)
    if key in faux: return faux[key][0]
    fn='fromJ_'+key
    faux[key]=(fn,None,t)
    if t[0]=='Vec':
        inner=t[1][0]
        lfn=fn+'_l'
        code=[f'def {lfn} : List J → Option {lean_type(t)}',
              f'  | [] => some []',
              f'  | x :: xs => match {fj(inner,"x")}, {lfn} xs with',
              f'    | some a, some as => some (a :: as)',
              f'    | _, _ => none',
              f'def {fn} : J → Option {lean_type(t)}',
              f'  | J.arr l => {lfn} l',
              f'  | _ => none']
    elif t[0]=='Option':
        inner=t[1][0]
        code=[f'def {fn} : J → Option {lean_type(t)}',
              f'  | J.null => some none',
              f'  | j => match {fj(inner,"j")} with',
              f'    | some a => some (some a)',
              f'    | none => none']
    else:
        comps=t[1] if t[0]=='Tuple' else [t[1][0]]*t[2]
        vs=[f'j{i}' for i in range(len(comps))]
        code=[f'def {fn} : J → Option {lean_type(t)}',
              f'  | J.arr ['+', '.join(vs)+'] => match '+', '.join(fj(c,v) for c,v in zip(comps,vs))+' with',
              f'    | '+', '.join(f'some a{i}' for i in range(len(comps)))+' => some ('+', '.join(f'a{i}' for i in range(len(comps)))+')',
              f'    | '+', '.join('_' for _ in comps)+' => none',
              f'  | _ => none']
    faux.pop(key); faux[key]=(fn,code,t)   # re-insert: post-order
    return fn
fdefs={}
for n,(k,g,items,a) in types.items():
    if k=='enum':
        if all(t is None for v,t in items):
            code=[f'def {n}.fromJson : J → Option {n}','  | J.str s =>']+[('    if' if i==0 else '    else if')+f' s = "{v}" then some .{v}' for i,(v,t) in enumerate(items)]+['    else none','  | _ => none']
        else:
            code=[f'def {n}.fromJson : J → Option {n}','  | J.obj [(tag, j)] =>']
            for i,(v,t) in enumerate(items):
                code+=[('    if' if i==0 else '    else if')+f' tag = "{v}" then Option.map (fun a => .{v} a) {fj(t,"j")}']
            code+=['    else none','  | _ => none']
    else:
        vs=[f'j_{f}' for f,t in items]
        ctor = f'.mk '+' '.join(f'a_{f}' for f,t in items) if n in rec_set else '{ '+', '.join(f'{f} := a_{f}' for f,t in items)+' }'
        code=[f'def {n}.fromJson : J → Option {n}',
              '  | J.obj ['+', '.join(f'(k_{f}, j_{f})' for f,t in items)+'] =>',
              '    if '+' ∧ '.join(f'k_{f} = "{f}"' for f,t in items)+' then',
              '      '+' '.join(f'Option.bind {fj(t,"j_"+f)} fun a_{f} =>' for f,t in items)+f' some ({ctor})',
              '    else none',
              '  | _ => none']
    fdefs[n]=code
o=['/- GENERATED by gen_ast.py: reader for the printer of Gen/Json.lean -/','import Gosyn.Gen.Json','set_option maxHeartbeats 4000000','namespace Gosyn.Ast','open Gosyn.Gen','',
   'def J.getNum : J → Option Nat | J.num n => some n | _ => none',
   'def J.getStr : J → Option String | J.str s => some s | _ => none',
   'def J.getBool : J → Option Bool | J.bool b => some b | _ => none','']
emitted=set(); done=set()
def fflush(o):
    progress=True
    while progress:
        progress=False
        for k,(fn,code,t) in list(faux.items()):
            if k in done: continue
            if adeps(t)<=emitted: o+=code+['']; done.add(k); progress=True
for comp in sccs:
    rec=len(comp)>1
    names=sorted(comp, key=lambda x:list(types).index(x))
    fflush(o)
    if rec:
        o.append('mutual')
        for k,(fn,code,t) in list(faux.items()):
            if k in done: continue
            if adeps(t)&set(comp) and adeps(t)<=emitted|set(comp): o+=code+['']; done.add(k)
        for n in names: o+=fdefs[n]+['']
        o.append('end'); o.append('')
    else:
        for n in names: o+=fdefs[n]+['']
    emitted|=set(comp)
fflush(o)
o.append('end Gosyn.Ast')
write_if_changed('FromJson.lean','\n'.join(o)+'\n')
print('faux',len(faux),'done',len(done))

# ---------- round-trip theorem generation ----------
VEC_UNFOLD=None
R=['/- GENERATED by gen_ast.py: fromJson (toJson x) = some x for every AST type -/','import Gosyn.Gen.FromJson','set_option maxHeartbeats 400000','set_option linter.unusedSimpArgs false','set_option linter.unusedVariables false','namespace Gosyn.Ast','open Gosyn.Gen','',
   '@[simp] theorem J.getNum_num (n : Nat) : J.getNum (J.num n) = some n := rfl',
   '@[simp] theorem J.getStr_str (s : String) : J.getStr (J.str s) = some s := rfl',
   '@[simp] theorem J.getBool_bool (b : Bool) : J.getBool (J.bool b) = some b := rfl','']
def rt_expr(t, e):
    """a term proving  fj(t)(tj(t)(e)) = some e  (names of lemmas to apply), or None for base types"""
    n,args=t[0],t[1]
    if n in('usize','String','PathBuf','bool'): return None
    if n in('Box','Rc'): return rt_expr(args[0],e)
    if n in('Tuple','Array'):
        comps=args if n=='Tuple' else [args[0]]*t[2]
        paths=['.2'*i+('.1' if i<len(comps)-1 else '') for i in range(len(comps))]
        return f'(rt_{tname(t)} '+' '.join(f'({e}){p}' for p in paths)+')'
    if n=='Vec': return f'(rt_{tname(t)}_l {e})'
    if n=='Option': return f'(rt_{tname(t)} {e})'
    return f'({n}.rt {e})'
def nonnull(t):
    n,args=t[0],t[1]
    if n in('Box','Rc'): return nonnull(args[0])
    if n in types and types[n][0]=='enum': return f'cases x <;> simp [{n}.toJson]'
    if n in types and n in rec_set: return f'cases x; simp [{n}.toJson]'
    if n in types: return f'simp [{n}.toJson]'
    return 'simp'
def aux_thm(key):
    ffn,_,t=faux[key]
    name='rt_'+key
    if t[0]=='Vec':
        tfn=aux[key][0]; inner=t[1][0]
        h=rt_expr(inner,'x')
        return [f'theorem {name}_l : ∀ l : {lean_type(t)}, {ffn}_l ({tfn} l) = some l',
                f'  | [] => by simp [{tfn}, {ffn}_l]',
                f'  | x :: xs => by',
                f'    have h1 := {name}_l xs'] + ([f'    have h2 := {h}'] if h else []) + [
                f'    simp [{tfn}, {ffn}_l, h1'+(', h2' if h else '')+']']
    if t[0]=='Option':
        tfn=aux[key][0]; inner=t[1][0]
        h=rt_expr(inner,'x')
        return [f'theorem {name} : ∀ o : {lean_type(t)}, {ffn} ({tfn} o) = some o',
                f'  | none => by simp [{tfn}, {ffn}]',
                f'  | some x => by'] + ([f'    have h2 := {h}'] if h else []) + [
                f'    unfold {tfn} {ffn}',
                f'    split',
                f'    · rename_i hnull; revert hnull; {nonnull(inner)}',
                f'    · simp'+(' [h2]' if h else '')]
    if t[0]=='Array' and is_rec(t): return []
    # tuples / arrays: not produced by toJ aux (inlined as J.arr [...]) -> lemma about the inline form
    comps=t[1] if t[0]=='Tuple' else [t[1][0]]*t[2]
    vs=[f'x{i}' for i in range(len(comps))]
    hs=[(rt_expr(c,v)) for c,v in zip(comps,vs)]
    return [f'theorem {name} '+' '.join(f'({v} : {lean_type(c)})' for c,v in zip(comps,vs))+f' : {ffn} (J.arr ['+', '.join(tj(c,v) for c,v in zip(comps,vs))+']) = some ('+', '.join(vs)+') := by']+[
            f'  have h{i} := {h}' for i,h in enumerate(hs) if h]+[
            f'  simp [{ffn}'+''.join(f', h{i}' for i,h in enumerate(hs) if h)+']']
EXTRA_UNFOLD=set()
def type_thm(n):
    k,g,items,a=types[n]
    if k=='enum':
        if all(t is None for v,t in items):
            return [f'theorem {n}.rt (v : {n}) : {n}.fromJson ({n}.toJson v) = some v := by',
                    f'  cases v <;> simp [{n}.toJson, {n}.fromJson]']
        code=[f'theorem {n}.rt : ∀ v : {n}, {n}.fromJson ({n}.toJson v) = some v']
        for v,t in items:
            h=rt_expr(t,'a')
            code+=[f'  | .{v} a => by']+([f'    have h := {h}'] if h else [])+[f'    simp [{n}.toJson, {n}.fromJson'+(', h' if h else '')+']']
        return code
    if n in rec_set:
        pats=[];hs=[]
        for f,t in items:
            if t[0]=='Array' and is_rec(t):
                kk=t[2]; vs=[f'{f}{i}' for i in range(kk)]
                pats.append('('+', '.join(vs)+')')
                for v_ in vs: hs.append(rt_expr(t[1][0], v_))
                EXTRA_UNFOLD.add('fromJ_'+tname(t))
            elif t[0] in ('Tuple','Array'):
                comps=t[1] if t[0]=='Tuple' else [t[1][0]]*t[2]
                pats.append(f)
                paths=['.2'*i+('.1' if i<len(comps)-1 else '') for i in range(len(comps))]
                hs.append(f'(rt_{tname(t)} '+' '.join(f'({f}){p}' for p in paths)+')')
            else:
                pats.append(f); hs.append(rt_expr(t,f))
        return [f'theorem {n}.rt : ∀ v : {n}, {n}.fromJson ({n}.toJson v) = some v',
                '  | .mk '+' '.join(pats)+' => by']+[f'    have h{i} := {h}' for i,h in enumerate(hs) if h]+[
                f'    simp [{n}.toJson, {n}.fromJson'+''.join(f', h{i}' for i,h in enumerate(hs) if h)+']']
    hs=[]
    for f,t in items:
        if t[0] in ('Tuple','Array'):
            comps=t[1] if t[0]=='Tuple' else [t[1][0]]*t[2]
            paths=['.2'*i+('.1' if i<len(comps)-1 else '') for i in range(len(comps))]
            hs.append(f'(rt_{tname(t)} '+' '.join(f'(v.{f}){p}' for p in paths)+')')
        else: hs.append(rt_expr(t,'v.'+f))
    return [f'theorem {n}.rt (v : {n}) : {n}.fromJson ({n}.toJson v) = some v := by']+[f'  have h{i} := {h}' for i,h in enumerate(hs) if h]+[
            f'  simp [{n}.toJson, {n}.fromJson'+''.join(f', h{i}' for i,h in enumerate(hs) if h)+']']
vec_readers=[faux[k][0] for k in faux if faux[k][2][0]=='Vec']
emitted=set(); done=set()
def rflush(o):
    progress=True
    while progress:
        progress=False
        for k,(fn,code,t) in list(faux.items()):
            if k in done: continue
            if adeps(t)<=emitted: o+=aux_thm(k)+['']; done.add(k); progress=True
for comp in sccs:
    rec=len(comp)>1
    names=sorted(comp, key=lambda x:list(types).index(x))
    rflush(R)
    if rec:
        R.append('mutual')
        for k,(fn,code,t) in list(faux.items()):
            if k in done: continue
            if adeps(t)&set(comp) and adeps(t)<=emitted|set(comp): R+=aux_thm(k)+['']; done.add(k)
        for n in names: R+=type_thm(n)+['']
        R.append('end'); R.append('')
    else:
        for n in names: R+=type_thm(n)+['']
    emitted|=set(comp)
rflush(R)
R+=['end Gosyn.Ast']
UNF=', '.join(sorted(set(vec_readers)|EXTRA_UNFOLD))
R=[l.replace('simp [', 'simp ['+UNF+', ') for l in R]
write_if_changed('RoundTrip.lean','\n'.join(R)+'\n')
print('round trip theorems written')
