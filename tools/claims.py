"""Per-property claims that go into MANIFEST.json (tools/mkmanifest.py)."""
CLAIMS = {
 'C07': {
  'category': 'proof',
  'technique': 'Lean 4 theorems on the generated operator/keyword tables, the scanner model and its token loop (whole-input tiling by induction) + differential correspondence + spec-lexer oracle',
  'text': 'Theorems (Props/C07.lean) about the scanner model over the operator and keyword tables regenerated from token.rs on every run; '
          'the model is validated against the real scanner (hook verif_scan) on every ordered pair of ~110 representative tokens x 6 separators and on random streams; '
          'an independent transcription of the lexical grammar judges the implementation token lists. The theorems cover the table facts and the per-token functions, '
          'the whole-stream statement is a theorem too (Props/C07b.lean, C09e.lean): the token loop of Model/ScanAll.lean - the function the driver runs for every scan case of the correspondence - returns, for every source text, a token list that tiles the text (scanTokens_tiles: nothing dropped, invented or moved; every token is scan_token\'s answer at its offset, so longest match and the literal grammars hold for every token of every text), and never exhausts its step bound (scanTokens_fuel). Correspondence + oracle tie scanner.rs to that model.',
  'note': 'Identifier characters and white space as in the property quantifier.',
 },
 'C08': {
  'category': 'proof',
  'technique': 'Lean 4 proof that the line_ended look-ahead equals the spec rule for every text and that next_token inserts `;` exactly when the flag is set and the line ended + generated trigger table vs spec + differential correspondence + spec-lexer oracle',
  'text': 'Theorem lineEnded_iff_spec: for every character sequence the model of Scanner::line_ended answers true exactly when the rest of the line is a line end in the sense of the Go spec '
          '(blanks, newline-free general comments skipped; newline, EOF, line comment, general comment reaching a newline end the line). trigger_table_partial: the trigger table regenerated from scanner.rs equals the spec list '
          'except for `package` (trigger_package_cex; known finding K1, pinned by a unit test). The model is validated against the real scanner on the exhaustive grid token kind x line-ending context and on random lines; '
          'Whole texts (Props/C08b.lean, scanTokens_semicolons): in the token list of any text scanned without an error, a pair is the automatic semicolon only where the previous token is a trigger and the line ends there per the spec, a token is read from the text only where no semicolon is due, and the text never ends while one is due. '
          'newline vs explicit-semicolon renderings of every corpus program are parsed to equal trees.'
          ' Whole step: synthetic_semicolon / no_synthetic_semicolon (next_token returns the automatic `;` at the current position, consuming nothing, exactly when the flag is set and the line has ended in the spec sense; otherwise it scans from the text), '
          'flag_after_token (after any scanned token the flag is the trigger table on that token), flag_after_synthetic (one `;` per line end), goback_restores_flag (backtracking restores the saved flag).',
  'note': 'How the parser uses the scanner (which marks it saves) is covered by correspondence + oracle.',
 },
 'C17': {
  'category': 'proof',
  'technique': 'Lean 4 proof over a byte-level model of next_nstr (UTF-8 encoding, char_indices) + hook counter at the unsafe conversion read after every case of every check',
  'text': 'Theorem C17_holds: for every source, position inside it and n, the byte slice handed to from_utf8_unchecked is the UTF-8 encoding of the next n chars, hence valid (core ByteArray.IsValidUTF8), '
          'and the index/slice bounds are in range (nextNstr_bounds). The pre-repair arithmetic is refuted by C17_old_cex. Tie: the 8-line function is modelled line by line and hook H2 counts invalid slices in the real code '
          'on all strings up to length 4/5 over a 14-symbol alphabet of 1-4 byte chars, operators, digits, quotes, and on every input of every other check.',
  'note': 'next_nstr is the only unsafe block; the translator check of C19 scans /repo/src for any other.',
 },
 'C09': {
  'category': 'proof',
  'technique': 'Lean 4 proof that the number-scanner model accepts exactly the spec literals with the spec kind (soundness + completeness, unbounded) + exhaustive/sampled differential correspondence + regular-expression oracle of the spec EBNF',
  'text': 'Proved for every input, no bound on length: number_sound (whatever scan_lit_number accepts when called as scan_token calls it is an int_lit / float_lit / imaginary_lit of Spec/Numbers.lean, of the reported kind), '
          'number_complete (every literal of the spec followed by a character that cannot continue a number is accepted whole with the spec kind and its own text), number_iff (the two as an equivalence); '
          'number_text_is_source (the text is a prefix of the remaining input, the scanner advances by its length), scanDigitsGo_sound/_complete (the underscore rule), facts_of_ok / with_complete (the eleven checks of the staged scanner, inverted and replayed); Props/C09e.lean tiling_numbers: in the token list of every text scanned without an error, every Integer / Float / Imag token is a literal of the spec of exactly that kind, verbatim at its offset. '
          'The model is tied to scanner.rs by exhaustive comparison (all strings to length 4 quick / 5 thorough over the property alphabet, sampled to length 7, structured literals to length 14) of implementation, model and an independent regex transcription of the EBNF.',
  'note': 'Enumeration bound of the correspondence is below the property text (6/7) for run time; lengths beyond are sampled. The theorems have no bound. Spec/Numbers.lean (the EBNF as inductive predicates) is trusted.',
 },
 'C10': {
  'category': 'proof',
  'technique': 'Lean 4 proof that the rune/string scanner model accepts exactly the spec literals, verbatim (iff, unbounded, all three quote kinds) + exhaustive/sampled differential correspondence + spec recogniser oracle',
  'text': 'Proved for every input, no bound on length: rune_iff_spec / rune_sound / rune_complete (scan_lit_rune accepts exactly one unicode_value or byte_value between single quotes: listed escapes only, exact digit counts, code point at most 0x10FFFF and no surrogate, octal at most 255, \\\' allowed and \\" not, no newline), '
          'string_iff_spec / string_sound / string_complete (the same for interpreted strings with \\" allowed and \\\' not), raw_iff_spec, stringLit_iff (both string kinds: accepted as t iff t is a string_lit of Spec/Strings.lean and a prefix of the text); '
          'rune_text_is_source, string_text_is_source (text kept verbatim including quotes); Props/C09e.lean tiling_runes / tiling_strings, Props/C07b.lean tiling_text_at: every Char / String token of every text scanned without an error is a rune_lit / string_lit of the spec and stands verbatim at its offset. The model is tied to scanner.rs by exhaustive comparison of implementation, model and an independent recogniser over all bodies to length 3 quick / 4 thorough x 3 quote kinds, sampled to 6, and structured escapes of every form.',
  'note': 'Enumeration bound of the correspondence is below the property text (5/6) for run time; longer bodies are sampled/structured. The theorems have no bound. Spec/Strings.lean is trusted.',
 },
 'C04': {
  'category': 'proof',
  'technique': 'Lean 4 proof that the precedence-climbing loop rebuilds every well-grouped tree (unbounded induction), generated precedence table = spec table, + exhaustive operator tuples through kernel, model and implementation',
  'text': 'prec_table_spec: Operator::precedence regenerated from token.rs equals the spec table for all 48 operators (a changed entry breaks the proof). climb_flat / climb_preserves / wg_unique: for the loop of Parser::binary_expression as a pure function, '
          'for every well-grouped tree of any size the loop returns exactly that tree from its operand/operator sequence, never drops or reorders anything, and the well-grouped tree is unique; left_assoc, tighter_left/right, operands_kept state the property sentences. '
          'The kernel is tied to the code by running it (driver mode climb) beside the full parser model and the implementation on all pairs and triples (quick) / quadruples (thorough) of the 19 binary operators, through Parser::expression and parse_source; '
          'unary x binary slots, unary x postfix forms (incl. `<-chan T(c)`), redundant and needed parentheses are decided by correspondence + specTree oracle.',
  'note': 'The step from the kernel to the model\'s binaryExpressionBody (token-level, with the scanner underneath) is by correspondence, not yet by theorem.',
 },
 'C16': {
  'category': 'proof',
  'technique': 'Lean 4 proof of the offset-to-(line,column) lookup (binary search invariant, no underflow for any table) and whole-parser invariant that every error value carries line_info of an offset (the offending token`s for unexpected-token errors) + differential correspondence on rejected inputs + location oracle',
  'text': 'parseFile_error_located (Props/HoareMain.lean): for every text, profile and fuel, an error returned by parse_file is an error value whose (line, column) is line_info(offset) on the table as it stands, the offset being the actual token`s for Error::UnexpectedToken (ErrOK carried through every production, including the errors re-thrown after parse_next_level_expr`s decrement). '
          'binarySearch_sorted, lineInfo_sorted, lineInfo_total, lineInfo_profile: for every sorted line table and offset the column is the true column, the line is the true line minus one from line 2 on (known finding K2, pinned by a unit test; stated as theorem and counterexample), '
          'and the lookup never panics or wraps for any table. The rest of the property (crate error type, path, location of the unexpected token, Display returns) is decided on rejected inputs (mutated corpus programs, soup, unterminated tokens at every line, multi-line tokens and backtracking before the error, nesting 62-200) '
          'by model/implementation correspondence on (variant, line, col, token) and an oracle that looks the token text up at the reported place; partial proof.'
          ' Props/Lines.lean: linesOK_next / linesOK_goback (every successful scanner step and every backtracking keeps the line table exactly the offsets after the newlines before the scanner position), sorted_of_linesOK, lineOf_reachable, mem_lines: the sortedness hypothesis holds in every reachable scanner state; Props/LinesAll.lean scanTokens_lines: after a whole text the table is exactly the text`s line-start table; lineInfo_true: line_info = (newlines before the offset, distance from the last line start).',
  'note': 'The table after a *failed* token is covered too (Props/C16b.lean: scanToken_region, nextToken_error_true, scanTokens_error_true: a scanning error carries the true column and newline count of an offset of the text). That the parser hands the *intended* offset to line_info is decided by the mutation oracle, not by a theorem.',
 },
 'C20': {
  'category': 'proof',
  'technique': 'Lean 4 round-trip theorem over AST types, JSON printer and reader all regenerated from ast.rs/token.rs each run + byte-for-byte JSON correspondence with serde_json + four-build differential',
  'text': 'File.rt (and Expression.rt, Statement.rt, Package.rt): for every value of the AST, fromJson (toJson v) = some v, hence re-serialisation is identical and toJson is injective; the 69 Lean types, the serde-convention printer, the reader and the proof script are generated from the struct/enum definitions and attributes of ast.rs and token.rs on every run, '
          'so a new field, a serde attribute (skip, rename, default, untagged, ...) or an Option of a nullable type breaks the translation or the proof. The JSON model is validated byte for byte against serde_json on every accepted input of every check; the real round trip (deserialise, compare Debug, re-serialise) runs on corpus programs, unusual shapes and mutants; '
          'four builds {serde off,on} x {hooks off,on} must print identical Debug renderings and errors.',
  'note': 'serde/serde_json themselves are trusted to implement the derive conventions the generator encodes; that assumption is what the byte-for-byte comparison exercises.',
 },
 'C19': {
  'category': 'proof',
  'technique': 'pure-function Lean model (isolation lemmas) + static scan of /repo/src for shared mutable state + 16-thread / repeated-run differential against the model',
  'text': 'In the model parsers are values and entry points are functions, so determinism and isolation hold by construction (step_isolated, history_independent). What is decided about the code: (1) a scan of /repo/src on every run finds no static, thread_local, lazy/once cell, interior mutability or unsafe other than next_nstr outside cfg(test)/cfg(gosyn_verif) - the fact that licenses modelling the parser as a function; '
          '(2) 16 threads parse the whole stream in shuffled orders in one process and every per-input result is identical on all threads, to a sequential run, to a second pass in the same process, and to the Lean model. Streams include twin-character inputs (code points agreeing in their low 16 bits / low byte) aimed at truncating caches. Partial: schedules are the ones the OS produced.',
  'note': 'A data race that does not manifest in the observed schedules is not exhibited; the static scan is textual.',
 },
 'C01': {
  'category': 'proof',
  'technique': 'Lean 4 proof (Hoare logic over the parser monad, induction on the recursion fuel) that the scanner and the whole parser model never reach a panic site from any of the three entry points, for every input + child-process execution of general streams and ~45 deep/long families in debug and release + model correspondence on outcome class',
  'text': 'entry_points_no_panic (Props/Hoare*.lean): for every text, either build profile and any fuel, parse_file / expression / parse_stmt of the model return a tree or an error value; every panic site that the model carries is dead: '
          'the 9 indexing sites of scanner.rs and the usize subtraction of line_info (nextToken_no_panic, any scanner state), goback`s unwrap (marks are positions from which scanning succeeded), extract lost, the three unwrap/unreachable sites behind parse_slice_index_or_type_inst, name.pop()/id_list.pop(), the two unreachable!() of parse_for_stmt, parse_decl`s, and Expression::pos on List (unimplemented!). '
          'The proof is a specification per production (TblOK: no panic + the result shapes the sites rely on), one lemma per production body given the table, and induction on the fuel (tblOK); second_call_no_panic covers repeated calls on one parser. '
          'What the model cannot exhibit is decided on the real process: every case runs in a child on the default 8 MiB stack in debug and release builds with a time limit; general streams (corpus, mutants, soup, UTF-8 soup, fuzz inputs; from memory and from disk; parse + Debug + drop) must answer, and the model must agree on ok/error/panic; '
          'deep/long families of every recursive or iterative construct at depths 1..10^4 (10^5 thorough) must answer. The property is FALSE of the code for uncounted recursion (K3), Debug/Drop of left-deep trees (K4) and an exponential re-parse (K5): each is a listed known finding per family; any other family or input that kills the process, panics or times out is a violation. Partial proof.',
  'note': 'The model has no stack model (frames are not bytes) and bounds recursion by fuel: stack exhaustion and running time are observed on the real process only. The theorem is about the hand-written model; its tie to parser.rs is the correspondence on outcome class (ok / error / panic site) over every stream.',
 },
 'C18': {
  'category': 'proof',
  'technique': 'Lean 4 proofs by induction over an abstract directory model of lib.rs (grouping, all-or-nothing failure, disk = memory) + differential correspondence on materialised directories + property oracle',
  'text': 'Model/Dir.lean models parse_file / parse_dir / Scanner::from_file over a list of entries (regular bytes, dangling symlink, directory). Proved for directories of any size: parseFile_eq_source (disk = BOM-stripped memory parse with the path recorded), parseDir_ok_groups (each package name maps to exactly the .go entries declaring it, once each), '
          'parseDir_error_iff + goFiles_none_iff (error iff some entry with extension go is unreadable / undecodable / unparsable; never a partial map; other entries ignored). The model is validated against the real functions on generated directories written to disk (names, extensions, package names, BOMs, valid and damaged contents, invalid UTF-8, dangling symlinks, missing directory) and the property is evaluated on the implementation output by an oracle built from in-memory parses.',
  'note': 'OS enumeration order and permission errors are outside the model; Path::extension is modelled as std documents it.',
 },
 'C14': {
  'category': 'proof',
  'technique': 'Lean 4 round-trip theorems on the operator fragment (climb_flat / climb_preserves) and on the tree encoding (File.rt) + print-and-reparse of every accepted input against the real parser',
  'text': 'Proved: on the binary-operator fragment, flatten-then-parse is the identity on well-grouped trees and parse-then-flatten is the identity on sequences (any size), and the JSON tree the printer reads determines the tree. '
          'The whole-language statement is decided by execution: every accepted input (corpus programs, statements, expressions; 1-3 token mutants; token soup; all short token sequences in 19 syntactic contexts - which reach tree shapes no valid program produces) is printed from the implementation tree by a straightforward printer and re-parsed; '
          'it must be accepted and equal up to positions, comments and empty statements. Partial proof + translation validation.',
  'note': 'The printer (tools/orch/goprint.py) is an oracle-side tool; its choices (parentheses only for Paren nodes and the operand of &, trailing comma in type-parameter lists of type declarations) are listed in DESIGN.md.',
 },
 'C02': {
  'category': 'proof',
  'technique': 'Lean 4 lemmas on the terminator primitives and the expression loop + generated derivations of the Go grammar in random legal layouts, enumerated ambiguity shapes and long flat files against the real parser, model correspondence',
  'text': 'Proved: skipped/expect behave as the omission rule needs (skipped_other, expect_other, ...), every well-grouped operator expression is consumed by the loop (C04), semicolons are inserted exactly per spec (C08). '
          'Whole-language acceptance is decided by execution: derivations of SourceFile generated production by production (tools/orch/gogen.py, nesting < 16; production x context coverage matrix in the evidence), rendered canonically and in random legal layouts (blanks, CR LF, line breaks, explicit / newline / omitted terminators, optional trailing commas, comments), '
          '1676 enumerated shapes of the type-parameter / array-length ambiguity, every corpus construct repeated 70 times in one file, and the hand-written corpus must all be accepted; rejections are classified by the model error site. Partial proof + translation validation. Seven rejections of valid Go found this way were repaired by fix: commits.',
  'note': 'A newline after `package` is not generated (known finding K1, claimed under C08). The generator is an oracle-side tool: validity of its output is by construction from the spec, not proved.',
 },
 'C03': {
  'category': 'proof',
  'technique': 'Lean 4 theorems on the tree-deciding pure helpers (extract, reset_chan_arrow) and the operator loop + comparison of the implementation tree with the generator derivation tree',
  'text': 'Proved for all inputs: extract never reaches its panic, names the leftmost identifier, is monotone in force; reset_chan_arrow preserves the token sequence (`<-` associates with the leftmost chan); the expression loop builds the unique well-grouped tree with the spec precedence table. '
          'The rest is decided by execution: every generated derivation (random and enumerated) is rendered and parsed, and the erased implementation tree must equal the derivation tree the generator built (after three documented vocabulary normalisations); first differing path reported per production x context cell. Partial proof + translation validation. One loss of structure found this way (embedded *T field) was repaired.',
  'note': 'norm() identifies: TypePointer / unary Star / Star node; the parenthesis the parser drops under unary &; Index{List} vs IndexList.',
 },
 'C13': {
  'category': 'proof',
  'technique': 'Lean 4 theorems that white space and newline-free comments never influence the token read or the semicolon decision + k independent random layouts of one token sequence against the real parser',
  'text': 'Proved for every scanner state: the token scanner is started on the input with all leading white space removed (rest_after_skip, same_token_after_blanks), blanks and newline-free general comments do not change the semicolon decision and any other comment acts as a newline (C08 lineEnded_iff_spec). '
          'For all that follows a point, not only the next token (Props/C13b.lean scan_gap, Props/C15b.lean scanTokensAcc_rel): a leading white gap of the same newline-ness gives the same token sequence with the same automatic semicolons, and what precedes a point influences the tokens after it only through the pending-semicolon flag. '
          'The parser half (it only sees tokens) is decided by execution: each token sequence (generated programs and the token lists of all corpus programs) is rendered in 3 (quick) / 8 (thorough) independently randomised layouts - comments at any gap, line breaks wherever no semicolon is inserted, explicit/newline/omitted terminators, trailing commas - and all must give the same erased tree. Partial proof.',
  'note': 'Comment handling inside the parser (comment tokens filtered in next(), re-scan after goback) is covered by correspondence, not by a theorem yet.',
 },
 'C05': {
  'category': 'proof',
  'technique': 'Lean 4 proof that every scanner-returned offset names its token text in chars (all states, all inputs), and whole-parser invariant that positions and leaves are created from such tokens only + typed walk of every accepted tree against a lexeme constraint table',
  'text': 'nextToken_at_pos / scanToken_text: for every scanner state and input, each (offset, token) pair the scanner returns has the token text at that char offset in the source (or is the automatic semicolon sitting at the end of the line\'s last token), only white space is skipped before it and the scanner ends right after it - so byte/char confusion or a wrong advance cannot occur in the scanner. '
          'Whole parser (Hoare logic over the parser monad, induction on fuel): the current token is only ever a token the scanner produced from the source (invariant `cur`, through every goback and caught error), hence the offset expect(k) returns - the source of the keyword, operator and bracket positions stored in the tree - is the offset of a source token of kind k whose text stands there (expect_spec, RealPos.text_at), and every Ident / BasicLit node is created with its text verbatim at its char offset (RealIdent.verbatim, RealLit.verbatim). '
          'That the parser stores the right offsets in the right fields is decided by execution on every accepted input (generated programs in random layouts with multi-byte characters, tabs, CR LF, multi-line raw strings and comments before the checked tokens; corpus; mutants; soup; 19 exhaustive context streams; the same files read from disk with CR LF and BOM): the implementation tree is walked BY TYPE (schema extracted from ast.rs each run) and every position field must name the lexeme of the constraint table, bracket pairs ordered and strictly containing their contents, siblings in source order. Partial proof.',
  'note': 'Unconstrained by the property and not judged: LabeledStmt.pos, FuncType.pos of interface method elements (0), ChannelType.pos.1 without arrow, File.line_info.',
 },
 'C06': {
  'category': 'proof',
  'technique': 'Lean 4 lemmas on the token-consuming primitives (expect, identifier) and whole-parser invariant that leaves are made from source tokens only + accounting oracle on every accepted file among valid programs, 1-3 token mutants, soup and exhaustive context streams',
  'text': 'Proved for every parser state: expect(k) succeeds only on a current token of kind k and returns its offset, fails on any other token or at end of input; the identifier leaf parser builds its leaf from the current token only. '
          'Whole parser (Hoare logic, induction on fuel): every Ident, BasicLit and string-literal node is created from a token that the scanner produces from the source at that offset with that text - no leaf is invented (identifier_spec, literal_spec, stringLiteral_spec); carried to the returned tree for the package name, every import path and name, and every top-level declared name - functions, methods, type specs, var and const spec names (parseFile_pkg_real, parseFile_imports_real, parseFile_decls_real). '
          'The whole-file statement is decided by execution: whenever the implementation accepts a file (generated valid programs, single- and multi-token deletions / insertions / duplications / swaps of them and of the corpus, token soup, all short token sequences in the file-level syntactic contexts), '
          'the identifier and literal leaves of its tree must equal the identifier and literal tokens of the crate\'s own scanner on that source (text, offset, each once), brackets must be balanced and the package clause / imports must come first. One violation found this way (`switch a b {}` dropped `a`) was repaired; the earlier `import "a" 42` defect is a fixed entry. Partial proof.',
  'note': 'That every token ends up as exactly one leaf (none dropped, brackets balanced, end of input reached) is not a theorem: it needs a recursive predicate over the 60 mutually recursive AST types in all 47 postconditions; the leaves oracle decides it.',
 },
 'C11': {
  'category': 'proof',
  'technique': 'Lean 4 whole-parser invariant (Hoare logic, induction on fuel): the comment list of an accepted file is strictly increasing in position (each comment at most once, in source order) and each entry is a comment token of the source, verbatim at its offset; lemmas on the three writers of the list + comment-injection differential with the layout engine\'s own comment list as oracle',
  'text': 'parseFile_comments_sorted (Props/HoareMain.lean): for every text, profile and fuel, if parse_file accepts then the offsets of File.comments are strictly increasing: the invariant (list sorted, all before the scanner position) is carried through every production, every goback, line_end_comment and every caught error. '
          'parseFile_comments_real / RealComment.verbatim: each entry is a comment token that the scanner produces from the source at exactly the entry\'s offset, and its non-empty text stands there verbatim - nothing in the list is invented, moved or altered. '
          'Proved for every parser state: goback keeps exactly the comments that start before the restored position (goback_comments), the comment loop of next() only appends (commentLoop_appends), a raw scanner step does not touch the list, and a comment token\'s text is the source text at its offset. '
          'No comment is skipped by next (Props/C11b.lean, next_comments): a successful Parser::next walks the scanner until a token that is not a comment and appends to the list exactly the comment tokens the scanner returned on the way, in order, with offset and verbatim text, and nothing else. '
          'The end-to-end statement File.comments = comments of the source is decided by execution: generated programs and the token lists of all corpus programs are rendered with line and general comments at random gaps up to every gap (including inside re-read type-parameter lists, array lengths with struct literals, interface and struct bodies, after struct fields on the same line), and the returned list must equal the (offset, text) list the layout engine wrote, in order. Partial proof.',
  'note': 'That no comment is missing from the whole file is a theorem per call of next (next_comments) but not for the whole parse: that the calls of next and goback add up to one pass over the file needs the scan trajectory; it is decided by the layout oracle.',
 },
 'C12': {
  'category': 'proof',
  'technique': 'Lean 4 proof of the grouping rule itself (the model of Parser::next leaves pending exactly finish(leadRun(run)) on the true line numbers of the source: blank line cuts the group, trailing comments are never documentation, the attached group is reported whole and alone), proof that the line numbers compared are true lines, and whole-parser invariant that documentation is made of source comments + generated declaration sequences with every comment placement at every line against the documentation oracle of DESIGN A.6',
  'text': 'Proved: Scanner::line_of is the true 1-based line on every sorted table, monotone, and equal for two offsets exactly when no line start lies between them - so the three comparisons of Parser::next (new group after a gap, group dropped before a distant token, comment trailing the previous token) test what they say. '
          'Whole parser (Hoare logic, induction on fuel): pending lead comments are only ever comment tokens of the source (invariant `lead`), so what drain_comments hands out is made of source comments (drainComments_spec), and in the returned tree the documentation of the file, of every top-level declaration and of every spec consists of comment tokens of the source (parseFile_docs_real, parseFile_decls_real). '
          'The grouping rule is a theorem (Props/C12b.lean, C12c.lean): next_run - from every parser state with an exact line table a successful next appends a run of comments and leaves pending exactly finish(leadRun(pending, 0, line of the previous token\'s end, run)) evaluated on true line numbers; next_cut (a blank line between two comments: nothing before it is reported), next_near (what is pending ends on the token\'s line or the one above), next_trailing (comments chained to the end of the previous token are never reported), next_attached (an unbroken run after a blank line, reaching the token, is reported whole, alone, in order), next_chained (the pending list is an unbroken run; entry condition stated and shown necessary). '
          'Where the productions drain the pending list (which declaration, spec or field receives it) and the struct-field line-end comment are decided by execution: generated sequences of package clause, func/var/const/type declarations, grouped specs and struct fields with, before each item, one of {none, attached group, multi-line general comment, detached group, trailing comment on the previous line, detached+attached}, items starting on any line including 1-3, comments inside the previous body; '
          'the documentation reported for each item (and the line-end comment of each struct field) must be the expected group. The two defects this exhibited on the original tree (trailing comment taken as doc; detached comment on lines 1-2 attached) were repaired by one fix: commit. Partial proof.',
  'note': 'The rule is proved for one call of next from a state with an exact line table (LinesOK, kept by next_token and goback); carrying it through the whole parse to each documentation field of the tree (which production drains where) is not a theorem and is decided by the placement oracle.',
 },
 'C15': {
  'category': 'proof',
  'technique': 'Lean 4 proofs that each of the nine places where parser.rs changes expr_level puts it back on success (calculus Frame / LQ / LS over the parser monad), that no helper function touches it, and that 18 further production bodies restore it given callees that do; scanner position independence; + fragment / prefix / call-history differential with positions shifted',
  'text': 'Proved for every state (Props/C15.lean, C15c-g): all nine sites that change the nesting level restore it on success - type_, type_list (three exits), parse_next_level_expr (the decrement also runs on the error path), parse_lit_value, parse_block_stmt, the speculative expression of parse_type_spec (five exits, two gobacks), and the save / -1 / restore of parse_if_header, parse_switch_stmt and parse_for_stmt (four exits) whatever the header\'s callees do; every helper function of parser.rs:42-281 (next with its comment loop, goback, expect, line_end_comment, ...) never changes the level, success or failure (Frame); 18 production bodies that do not touch the level restore it given a table of callees that does (TblLP); backtracking keeps exactly the comments before the restored position; line numbers used later are true lines; the scanner is position independent (Props/C15b.lean: view_eq, scan_embedded, scan_fragment - same remaining text and flag give the same tokens shifted by the position difference, over any source, line table and profile) and repeats after goback exactly what it did from the mark (goback_same_tokens). '
          'The whole statement is decided by execution: corpus and generated declarations, statements and expressions are parsed alone and embedded after state-leaving prefixes (re-read type-parameter lists and array lengths, control headers, 60-deep nesting, interface elements that fail as methods, multi-line tokens, non-ASCII comments before blank lines, generated declaration sequences in random layouts); '
          'the embedded subtree must equal the stand-alone tree with every position shifted by the prefix length; sequences of statements parsed by repeated parse_stmt calls on one parser must each equal their stand-alone parse. Partial proof.',
  'note': 'The induction over the whole table (every production restores the level, for every fuel) is written (tools/C15h.lean.draft) but not closed: 29 bodies with inner loops are missing and parse_interface_type needs a token-level fact (DESIGN 11.7); the long flat files of C02 (each construct 70 times) exercise level leaks as well.',
 },
}
NOT_CLAIMED = {}
