"""Per-property claims that go into MANIFEST.json (tools/mkmanifest.py)."""
CLAIMS = {
 'C07': {
  'category': 'proof',
  'technique': 'Lean 4 theorems on the generated operator/keyword tables and the scanner model + differential correspondence + spec-lexer oracle',
  'text': 'Theorems (Props/C07.lean) about the scanner model over the operator and keyword tables regenerated from token.rs on every run; '
          'the model is validated against the real scanner (hook verif_scan) on every ordered pair of ~110 representative tokens x 6 separators and on random streams; '
          'an independent transcription of the lexical grammar judges the implementation token lists. The theorems cover the table facts and the per-token functions, '
          'the whole-stream statement is decided by correspondence + oracle (partial).',
  'note': 'Identifier characters and white space as in the property quantifier.',
 },
}
NOT_CLAIMED = {}
