//! Line-protocol harness around the real gosyn crate (built from /repo's working tree with
//! `--cfg gosyn_verif` and feature `serde`).  One case per input line `<mode> <hex>`; one JSON
//! line per case on stdout, prefixed with `u=<n> ` where n is the number of invalid-UTF-8 slices
//! observed by hook H2 during that case.
//!
//! flags: --flush      flush stdout after every case (crash bisection)
//!        --timing     append "\t<micros>" to every line
//!        --threads N  run all cases on N threads (shuffled per thread), print in input order
//!        --workdir D  scratch directory for the disk modes
use gosyn::token::{LitKind, Token};
use std::io::{BufRead, Write};
use std::sync::atomic::Ordering;

fn unhex(s: &str) -> Vec<u8> {
    (0..s.len() / 2)
        .map(|i| u8::from_str_radix(&s[2 * i..2 * i + 2], 16).unwrap())
        .collect()
}
fn js(s: &str) -> String {
    serde_json::to_string(s).unwrap()
}
fn lit_name(k: &LitKind) -> &'static str {
    match k {
        LitKind::Ident => "Ident",
        LitKind::String => "String",
        LitKind::Integer => "Integer",
        LitKind::Float => "Float",
        LitKind::Imag => "Imag",
        LitKind::Char => "Char",
    }
}
fn tok_json(t: &Token) -> String {
    match t {
        Token::Comment(x) => format!("[\"Comment\",{}]", js(x)),
        Token::Keyword(k) => format!("[\"Keyword\",{}]", js(&format!("{:?}", k))),
        Token::Operator(o) => format!("[\"Operator\",{}]", js(&format!("{:?}", o))),
        Token::Literal(k, x) => format!("[\"{}\",{}]", lit_name(k), js(x)),
    }
}
fn err_json(e: &anyhow::Error) -> String {
    // Display must not panic (C16); it is evaluated under the per-case catch_unwind.
    // Fields the model predicts come first; "x" holds the extras that are only judged by oracles.
    let disp = format!("{}", e);
    match e.downcast_ref::<gosyn::Error>() {
        Some(gosyn::Error::UnexpectedToken {
            location,
            actual,
            expect,
            path,
        }) => format!(
            "{{\"kind\":\"Unexpected\",\"line\":{},\"col\":{},\"actual\":{},\"x\":{{\"expect\":{},\"path\":{},\"display\":{}}}}}",
            location.0,
            location.1,
            match actual {
                None => "null".to_string(),
                Some(t) => tok_json(t),
            },
            expect.len(),
            js(&path.to_string_lossy()),
            js(&disp)
        ),
        Some(gosyn::Error::Else {
            location,
            path,
            reason,
        }) => format!(
            "{{\"kind\":\"Else\",\"line\":{},\"col\":{},\"x\":{{\"reason\":{},\"path\":{},\"display\":{}}}}}",
            location.0,
            location.1,
            js(reason),
            js(&path.to_string_lossy()),
            js(&disp)
        ),
        Some(gosyn::Error::IO(_)) => format!("{{\"kind\":\"IO\",\"x\":{{\"display\":{}}}}}", js(&disp)),
        None => format!("{{\"kind\":\"Foreign\",\"x\":{{\"display\":{}}}}}", js(&disp)),
    }
}
fn outcome<T: serde::Serialize>(r: anyhow::Result<T>) -> String {
    match r {
        Ok(t) => format!("{{\"ok\":{}}}", serde_json::to_string(&t).unwrap()),
        Err(e) => format!("{{\"err\":{}}}", err_json(&e)),
    }
}

fn scan_case(s: &str) -> String {
    let (toks, err, lines) = gosyn::verif_scan(s);
    let ts: Vec<String> = toks
        .iter()
        .map(|(p, t)| {
            let j = tok_json(t);
            format!("[{},{}", p, &j[1..])
        })
        .collect();
    let ls: Vec<String> = lines.iter().map(|l| l.to_string()).collect();
    format!(
        "{{\"toks\":[{}],\"err\":{},\"lines\":[{}]}}",
        ts.join(","),
        err.as_ref().map(err_json).unwrap_or("null".into()),
        ls.join(",")
    )
}

/// serde round trip of the tree (C20): deserialise, compare Debug renderings, serialise again
fn json_case(s: &str) -> String {
    match gosyn::parse_source(s) {
        Err(e) => format!("{{\"err\":{}}}", err_json(&e)),
        Ok(f) => {
            let a = serde_json::to_string(&f).unwrap();
            let back: Result<gosyn::ast::File, _> = serde_json::from_str(&a);
            match back {
                Err(e) => format!("{{\"rt\":\"deserialize failed: {}\"}}", e),
                Ok(g) => {
                    let b = serde_json::to_string(&g).unwrap();
                    let da = format!("{:?}", f);
                    let db = format!("{:?}", g);
                    format!(
                        "{{\"rt\":\"done\",\"same_json\":{},\"same_debug\":{}}}",
                        a == b,
                        da == db
                    )
                }
            }
        }
    }
}

/// parse, print with Debug, drop (C01: printing and dropping must not kill the process)
fn dbg_case(mode: &str, s: &str) -> String {
    fn fin<T: std::fmt::Debug>(r: anyhow::Result<T>) -> String {
        match r {
            Ok(t) => {
                let d = format!("{:?}", t);
                let n = d.len();
                drop(d);
                drop(t);
                format!("{{\"ok_debug_len\":{}}}", n)
            }
            Err(e) => format!("{{\"err\":{}}}", err_json(&e)),
        }
    }
    match mode {
        "dfile" => fin(gosyn::parse_source(s)),
        "dexpr" => fin(gosyn::Parser::from(s).expression()),
        "dstmt" => fin(gosyn::Parser::from(s).parse_stmt()),
        _ => unreachable!(),
    }
}

fn run_case(mode: &str, bytes: &[u8], workdir: &str, serial: usize) -> String {
    if mode == "disk" {
        // raw bytes written to a file and parsed through parse_file (C18, C01 "from disk")
        let p = format!("{}/f{}_{}.go", workdir, std::process::id(), serial);
        std::fs::write(&p, bytes).unwrap();
        let r = gosyn::parse_file(&p);
        let out = outcome(r);
        let _ = std::fs::remove_file(&p);
        return out.replace(&p, "<disk>");
    }
    if mode == "dir" {
        return dir_case(bytes, workdir, serial);
    }
    let s = match std::str::from_utf8(bytes) {
        Ok(s) => s,
        Err(_) => return "{\"bad-input\":\"not utf-8\"}".into(),
    };
    match mode {
        "scan" => scan_case(s),
        "file" => outcome(gosyn::parse_source(s)),
        "expr" => outcome(gosyn::Parser::from(s).expression()),
        "stmt" => outcome(gosyn::Parser::from(s).parse_stmt()),
        "json" => json_case(s),
        "dfile" | "dexpr" | "dstmt" => dbg_case(mode, s),
        m if m.starts_with("stmts") => {
            // repeated parse_stmt calls on one parser (C15)
            let k: usize = m[5..].parse().unwrap_or(1);
            let mut p = gosyn::Parser::from(s);
            let mut outs = vec![];
            for _ in 0..k {
                let r = p.parse_stmt();
                let bad = r.is_err();
                outs.push(outcome(r));
                if bad {
                    break;
                }
            }
            format!("[{}]", outs.join(","))
        }
        m if m.starts_with("exprs") => {
            // expression then statements on one parser
            let k: usize = m[5..].parse().unwrap_or(1);
            let mut p = gosyn::Parser::from(s);
            let mut outs = vec![];
            for _ in 0..k {
                let r = p.expression();
                let bad = r.is_err();
                outs.push(outcome(r));
                if bad {
                    break;
                }
            }
            format!("[{}]", outs.join(","))
        }
        _ => "{\"bad-op\":true}".into(),
    }
}

/// directory case (C18).  The case is a JSON array of entries
/// {"name":…, "kind":"file"|"symlink"|"dir", "hex":…}; a leading entry {"missing":true} asks for a
/// nonexistent directory.  Output is canonical: package names sorted, files sorted by path.
fn dir_case(bytes: &[u8], workdir: &str, serial: usize) -> String {
    let spec: serde_json::Value = serde_json::from_slice(bytes).unwrap();
    let d = format!("{}/d{}_{}", workdir, std::process::id(), serial);
    let _ = std::fs::remove_dir_all(&d);
    let mut missing = false;
    std::fs::create_dir_all(&d).unwrap();
    for e in spec.as_array().unwrap() {
        if e.get("missing").is_some() {
            missing = true;
            continue;
        }
        let name = e["name"].as_str().unwrap();
        let p = format!("{}/{}", d, name);
        match e["kind"].as_str().unwrap() {
            "file" => std::fs::write(&p, unhex(e["hex"].as_str().unwrap())).unwrap(),
            "symlink" => std::os::unix::fs::symlink(format!("{}/nonexistent-target", d), &p).unwrap(),
            "dir" => std::fs::create_dir_all(&p).unwrap(),
            _ => {}
        }
    }
    let target = if missing { format!("{}/no-such-dir", d) } else { d.clone() };
    let r = gosyn::parse_dir(&target);
    let out = match r {
        Err(e) => format!("{{\"err\":{}}}", err_json(&e)),
        Ok(map) => {
            let mut names: Vec<&String> = map.keys().collect();
            names.sort();
            let mut parts = vec![];
            for n in names {
                let pkg = &map[n];
                let mut files: Vec<String> = pkg
                    .files
                    .iter()
                    .map(|f| {
                        format!(
                            "{{\"path\":{},\"tree\":{}}}",
                            js(&f.path.to_string_lossy()),
                            serde_json::to_string(f).unwrap()
                        )
                    })
                    .collect();
                files.sort();
                parts.push(format!(
                    "{{\"name\":{},\"path\":{},\"files\":[{}]}}",
                    js(n),
                    js(&pkg.path.to_string_lossy()),
                    files.join(",")
                ));
            }
            format!("{{\"ok\":[{}]}}", parts.join(","))
        }
    };
    let _ = std::fs::remove_dir_all(&d);
    out.replace(&d, "<dir>")
}

fn do_line(line: &str, workdir: &str, serial: usize) -> String {
    let (mode, hex) = match line.split_once(' ') {
        Some((m, h)) => (m, h.trim()),
        None => (line.trim(), ""),
    };
    let bytes = unhex(hex);
    gosyn::VERIF_BAD_UTF8.store(0, Ordering::Relaxed);
    let r = std::panic::catch_unwind(|| run_case(mode, &bytes, workdir, serial));
    let bad = gosyn::VERIF_BAD_UTF8.load(Ordering::Relaxed);
    match r {
        Ok(t) => format!("u={} {}", bad, t),
        Err(p) => {
            let msg = if let Some(s) = p.downcast_ref::<&str>() {
                s.to_string()
            } else if let Some(s) = p.downcast_ref::<String>() {
                s.clone()
            } else {
                "?".into()
            };
            format!("u={} {{\"panic\":{}}}", bad, js(&msg))
        }
    }
}

fn main() {
    let args: Vec<String> = std::env::args().collect();
    let flush = args.iter().any(|a| a == "--flush");
    let timing = args.iter().any(|a| a == "--timing");
    let mut threads = 0usize;
    let mut workdir = "/verif/work/tmp".to_string();
    for i in 0..args.len() {
        if args[i] == "--threads" {
            threads = args[i + 1].parse().unwrap();
        }
        if args[i] == "--workdir" {
            workdir = args[i + 1].clone();
        }
    }
    if args.iter().any(|a| a == "--charclass") {
        // hook H3: the scanner's own character classes on every code point, as ranges
        for (name, sel) in [("letter", 0usize), ("digit", 1), ("white", 2)] {
            let mut ranges: Vec<(u32, u32)> = vec![];
            for cp in 0..=0x10FFFFu32 {
                if let Some(c) = char::from_u32(cp) {
                    let cls = gosyn::verif_char_class(c);
                    let b = [cls.0, cls.1, cls.2][sel];
                    if b {
                        match ranges.last_mut() {
                            Some(r) if r.1 + 1 == cp => r.1 = cp,
                            _ => ranges.push((cp, cp)),
                        }
                    }
                }
            }
            let parts: Vec<String> = ranges.iter().map(|(a, b)| format!("{}-{}", a, b)).collect();
            println!("{} {}", name, parts.join(","));
        }
        return;
    }
    let _ = std::fs::create_dir_all(&workdir);
    std::panic::set_hook(Box::new(|_| {}));
    let stdin = std::io::stdin();
    if threads > 0 {
        // C19: every thread parses every case, each in its own pseudo-random order; the per-case
        // results of all threads must be identical.  The UTF-8 counter is global, so it is not
        // reported per case here.
        let lines: Vec<String> = stdin.lock().lines().map(|l| l.unwrap()).collect();
        let lines = std::sync::Arc::new(lines);
        let wd = std::sync::Arc::new(workdir);
        let mut handles = vec![];
        for t in 0..threads {
            let lines = lines.clone();
            let wd = wd.clone();
            handles.push(std::thread::Builder::new().stack_size(8 << 20).spawn(move || {
                let n = lines.len();
                let mut order: Vec<usize> = (0..n).collect();
                let mut x: u64 = 0x9E3779B97F4A7C15u64.wrapping_mul(t as u64 + 1) | 1;
                for i in (1..n).rev() {
                    x ^= x << 13;
                    x ^= x >> 7;
                    x ^= x << 17;
                    order.swap(i, (x % (i as u64 + 1)) as usize);
                }
                let mut res = vec![String::new(); n];
                for &i in &order {
                    let o = do_line(&lines[i], &wd, t * 1_000_000 + i);
                    // strip the counter prefix (global, shared between threads)
                    res[i] = o.split_once(' ').map(|x| x.1.to_string()).unwrap_or(o);
                }
                res
            }).unwrap());
        }
        let all: Vec<Vec<String>> = handles.into_iter().map(|h| h.join().unwrap()).collect();
        let out = std::io::stdout();
        let mut out = std::io::BufWriter::new(out.lock());
        for i in 0..lines.len() {
            let same = all.iter().all(|r| r[i] == all[0][i]);
            writeln!(out, "{} {}", if same { "same" } else { "DIFF" }, all[0][i]).unwrap();
        }
        return;
    }
    let out = std::io::stdout();
    let mut out = std::io::BufWriter::with_capacity(1 << 16, out.lock());
    let mut serial = 0usize;
    for line in stdin.lock().lines() {
        let line = line.unwrap();
        if line.is_empty() {
            continue;
        }
        let t0 = std::time::Instant::now();
        let o = do_line(&line, &workdir, serial);
        serial += 1;
        if timing {
            writeln!(out, "{}\t{}", o, t0.elapsed().as_micros()).unwrap();
        } else {
            writeln!(out, "{}", o).unwrap();
        }
        if flush {
            out.flush().unwrap();
        }
    }
    out.flush().unwrap();
}
