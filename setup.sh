#!/bin/bash
# MANIFEST.setup_cmd: builds everything the checks need from files on disk, offline.
set -e
cd "$(dirname "$0")"
export CARGO_NET_OFFLINE=true
mkdir -p work/tmp work/replays evidence
[ -f harness/Cargo.lock ] || cp /repo/Cargo.lock harness/Cargo.lock
(cd harness && cargo build --offline 2>&1 | tail -3 && cargo build --release --offline 2>&1 | tail -3)
python3 tools/gen_unicode.py harness/target/debug/harness lean/Gosyn/Gen/Unicode.lean
python3 tools/extract.py /repo lean/Gosyn/Gen/Tables.lean
python3 tools/gen_ast.py /repo lean/Gosyn/Gen
(cd lean && timeout 3000 lake build Gosyn driver 2>&1 | tail -5)
echo "setup done"
