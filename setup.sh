#!/bin/bash
# MANIFEST.setup_cmd: builds everything the checks need from files on disk, offline.
set -e
cd "$(dirname "$0")"
export CARGO_NET_OFFLINE=true
mkdir -p work/tmp work/replays work/audit evidence
[ -f harness/Cargo.lock ] || cp /repo/Cargo.lock harness/Cargo.lock
[ -f harness2/Cargo.lock ] || cp /repo/Cargo.lock harness2/Cargo.lock
(cd harness && cargo build --offline 2>&1 | tail -2 && cargo build --release --offline 2>&1 | tail -2)
(cd harness2 && CARGO_TARGET_DIR=target-plain cargo build --offline 2>&1 | tail -1 \
  && CARGO_TARGET_DIR=target-serde cargo build --offline --features serde 2>&1 | tail -1 \
  && RUSTFLAGS="--cfg gosyn_verif" CARGO_TARGET_DIR=target-hooks cargo build --offline 2>&1 | tail -1 \
  && RUSTFLAGS="--cfg gosyn_verif" CARGO_TARGET_DIR=target-serde-hooks cargo build --offline --features serde 2>&1 | tail -1)
python3 tools/gen_unicode.py harness/target/debug/harness lean/Gosyn/Gen/Unicode.lean
python3 tools/extract.py /repo lean/Gosyn/Gen/Tables.lean
python3 tools/gen_ast.py /repo lean/Gosyn/Gen
MODS=$(python3 -c "import json;print(' '.join(sorted({m for v in json.load(open('obligations.json')).values() for m in v['modules']})))")
(cd lean && timeout 3400 lake build Gosyn driver $MODS 2>&1 | tail -3)
echo "setup done"
