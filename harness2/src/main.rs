//! Feature-independence harness (C20): built four times — {serde off, on} x {hooks off, on} — and
//! fed the same case lines `<mode> <hex>`; prints, per case, the Debug rendering of the result
//! (tree) or the error's variant, location, path and Display text.  Uses only the public API that
//! exists in every configuration.
use std::io::{BufRead, Write};

fn unhex(s: &str) -> Vec<u8> {
    (0..s.len() / 2).map(|i| u8::from_str_radix(&s[2 * i..2 * i + 2], 16).unwrap()).collect()
}
fn fnv(s: &str) -> u64 {
    let mut h: u64 = 0xcbf29ce484222325;
    for b in s.bytes() {
        h ^= b as u64;
        h = h.wrapping_mul(0x100000001b3);
    }
    h
}
fn show<T: std::fmt::Debug>(r: anyhow::Result<T>, full: bool) -> String {
    match r {
        Ok(t) => {
            let d = format!("{:?}", t);
            if full { format!("ok {}", d) } else { format!("ok {} {:016x}", d.len(), fnv(&d)) }
        }
        Err(e) => match e.downcast_ref::<gosyn::Error>() {
            Some(g) => format!("err {:?} | {}", g, e),
            None => format!("foreign {}", e),
        },
    }
}
fn main() {
    let full = std::env::args().any(|a| a == "--full");
    std::panic::set_hook(Box::new(|_| {}));
    let stdin = std::io::stdin();
    let out = std::io::stdout();
    let mut out = std::io::BufWriter::new(out.lock());
    for line in stdin.lock().lines() {
        let line = line.unwrap();
        if line.is_empty() { continue; }
        let (mode, hex) = line.split_once(' ').unwrap_or((line.as_str(), ""));
        let bytes = unhex(hex.trim());
        let mode = mode.to_string();
        let r = std::panic::catch_unwind(move || {
            let s = match std::str::from_utf8(&bytes) { Ok(s) => s.to_string(), Err(_) => return "bad-input".to_string() };
            match mode.as_str() {
                "file" => show(gosyn::parse_source(&s), full),
                "expr" => show(gosyn::Parser::from(s.as_str()).expression(), full),
                "stmt" => show(gosyn::Parser::from(s.as_str()).parse_stmt(), full),
                _ => "bad-op".to_string(),
            }
        });
        match r {
            Ok(t) => writeln!(out, "{}", t.replace('\n', "\\n")).unwrap(),
            Err(_) => writeln!(out, "panic").unwrap(),
        }
    }
    out.flush().unwrap();
}
